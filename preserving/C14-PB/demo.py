#!/usr/bin/env python3
# Usage: demo.py [compiler-workspace]     (default /tmp/mut4/C14/compiler)
#
# Builds ironplcc twice (HEAD = "before", HEAD + patch.diff = "after"), runs
# both on the same example files and prints the visible difference. Exits 0
# only if the observables that property C14 talks about (verdict, problem
# codes, line/column positions, no crash) satisfy the statement of the
# property before AND after the change.
#
# The script writes only below a `mktemp -d` directory and (temporarily, it is
# undone on exit) applies patch.diff in the git worktree of the workspace.
import codecs, os, re, shutil, subprocess, sys, tempfile

HERE = os.path.dirname(os.path.abspath(__file__))
PATCH = os.path.join(HERE, "patch.diff")
WS = os.path.abspath(sys.argv[1] if len(sys.argv) > 1 else "/tmp/mut4/C14/compiler")
ENV = dict(os.environ, CARGO_NET_OFFLINE="true")
ANSI = re.compile(r"\x1b\[[0-9;]*m")
FAILED = []


def sh(*cmd, cwd=None, check=True):
    return subprocess.run(cmd, cwd=cwd, env=ENV, check=check,
                          stdout=subprocess.PIPE, stderr=subprocess.PIPE, text=True)


ROOT = sh("git", "-C", WS, "rev-parse", "--show-toplevel").stdout.strip()


def git_apply(*flags, check=True):
    return sh("git", "apply", *flags, PATCH, cwd=ROOT, check=check)


def build(dest):
    sh("cargo", "build", "--offline", "-q", "-p", "ironplcc", cwd=WS)
    shutil.copy(os.path.join(WS, "target", "debug", "ironplcc"), dest)


def build_both(tmp):
    """Returns (before, after): paths of the two binaries."""
    before, after = os.path.join(tmp, "ironplcc.before"), os.path.join(tmp, "ironplcc.after")
    if git_apply("--check", check=False).returncode == 0:
        # Worktree is at HEAD (as far as the patch is concerned)
        build(before)
        git_apply()
        try:
            build(after)
        finally:
            git_apply("-R")
    elif git_apply("-R", "--check", check=False).returncode == 0:
        # Worktree already has the patch
        build(after)
        git_apply("-R")
        try:
            build(before)
        finally:
            git_apply()
    else:
        sys.exit("patch.diff neither applies nor reverse-applies in " + ROOT)
    return before, after


class Run:
    def __init__(self, binary, action, path):
        p = subprocess.run([binary, action, path], stdout=subprocess.PIPE, stderr=subprocess.PIPE)
        self.rc = p.returncode
        self.stdout = p.stdout.decode("utf-8", "replace")
        self.stderr = ANSI.sub("", p.stderr.decode("utf-8", "replace"))
        # The observables of the property
        self.verdict = "OK" if self.rc == 0 else "FAIL"
        self.codes = re.findall(r"^error\[(P\d+)\]", self.stderr, re.M)
        # codespan: "┌─ <file>:<line>:<col>"; the directory differs per encoding
        self.positions = [(os.path.basename(f), int(l), int(c)) for f, l, c in
                          re.findall(r"┌─ (.*):(\d+):(\d+)$", self.stderr, re.M)]
        self.crashed = self.rc not in (0, 1) or "panicked" in self.stderr

    def observables(self):
        return (self.verdict, self.codes, self.positions)


def expect(cond, what):
    print(("  ok   " if cond else "  FAIL ") + what)
    if not cond:
        FAILED.append(what)


ENCODINGS = ["utf8", "utf8-bom", "utf16le-bom", "utf16be-bom", "cp1252"]


def write_encodings(tmp, name, text):
    """Writes `text` in the five encodings of the property; returns {encoding: path}."""
    data = {
        "utf8": text.encode("utf-8"),
        "utf8-bom": codecs.BOM_UTF8 + text.encode("utf-8"),
        "utf16le-bom": codecs.BOM_UTF16_LE + text.encode("utf-16-le"),
        "utf16be-bom": codecs.BOM_UTF16_BE + text.encode("utf-16-be"),
        "cp1252": text.encode("cp1252"),
    }
    # The cp1252 bytes must not happen to be valid UTF-8 (else they are a different text)
    try:
        data["cp1252"].decode("utf-8")
        sys.exit("example is not suitable: cp1252 bytes are valid UTF-8")
    except UnicodeDecodeError:
        pass
    paths = {}
    for enc, b in data.items():
        d = os.path.join(tmp, name, enc)
        os.makedirs(d)
        paths[enc] = os.path.join(d, "prog.st")
        with open(paths[enc], "wb") as f:
            f.write(b)
    return paths


def line_col_inside(text, line, col):
    lines = text.split("\n")
    return 1 <= line <= len(lines) and 1 <= col <= len(lines[line - 1]) + 1


def check_same_across_encodings(label, binary, action, paths):
    runs = {enc: Run(binary, action, p) for enc, p in paths.items()}
    ref = runs["utf8"].observables()
    print("  [%s] utf8 observables: verdict=%s codes=%s positions=%s" % ((label,) + ref))
    for enc, r in runs.items():
        expect(not r.crashed, "[%s] %s: no crash (exit code %d)" % (label, enc, r.rc))
        expect(r.observables() == ref, "[%s] %s: same verdict, codes, line/column as utf8" % (label, enc))
    return runs


def finish():
    print()
    if FAILED:
        print("PROPERTY OBSERVABLES VIOLATED: %d check(s) failed" % len(FAILED))
        sys.exit(1)
    print("All property observables hold before and after the change.")
    sys.exit(0)


def main():
    tmp = tempfile.mkdtemp(prefix="c14-B.")
    try:
        before, after = build_both(tmp)
        bad = ("PROGRAM main\nVAR\n  x : INT;\nEND_VAR\n"
               "  (* größe café *) x := 1 ? 2;\nEND_PROGRAM\n")
        good = ("PROGRAM main\nVAR\n  x : INT;\n  s : STRING;\nEND_VAR\n"
                "  s := 'größe café'; x := 1;\nEND_PROGRAM\n")
        bad_paths = write_encodings(tmp, "bad", bad)
        good_paths = write_encodings(tmp, "good", good)
        # A file that claims (byte-order mark) to be UTF-16 but is not: odd number of bytes
        lying = os.path.join(tmp, "lying.st")
        with open(lying, "wb") as f:
            f.write(codecs.BOM_UTF16_LE + b"PROGRAM main\nEND_PROGRAM\n")

        notes, p28 = {}, {}
        for label, binary in (("before", before), ("after", after)):
            print("== %s: `check` of a program with a lexical error" % label)
            runs = check_same_across_encodings(label, binary, "check", bad_paths)
            r = runs["utf8"]
            expect(r.verdict == "FAIL" and r.codes[:1] == ["P0031"], "[%s] verdict FAIL with P0031" % label)
            expect(r.positions[:1] == [("prog.st", 5, 27)], "[%s] position is 5:27 (the '?')" % label)
            expect(line_col_inside(bad, 5, 27), "[%s] position lies inside the decoded text" % label)
            notes[label] = {enc: [l.replace(tmp, "<tmp>") for l in x.stderr.splitlines() if l.startswith("note:")]
                            for enc, x in runs.items()}

            print("== %s: `check` of a valid program" % label)
            runs = check_same_across_encodings(label, binary, "check", good_paths)
            expect(runs["utf8"].verdict == "OK", "[%s] verdict OK" % label)
            expect(all(x.stdout == "OK\n" for x in runs.values()), "[%s] stdout is OK in all encodings" % label)

            print("== %s: file with UTF-16 byte-order mark and an odd number of bytes" % label)
            r = Run(binary, "check", lying)
            expect(not r.crashed, "[%s] no crash (exit code %d)" % (label, r.rc))
            expect(r.verdict == "FAIL" and r.codes == ["P0028"], "[%s] verdict FAIL with P0028" % label)
            p28[label] = [l.strip() for l in r.stderr.splitlines() if "^" in l]

        print()
        print("== visible difference (not constrained by the property)")
        for enc in ENCODINGS:
            print("  %-12s stderr notes before: %s" % (enc, notes["before"][enc]))
            print("  %-12s stderr notes after : %s" % ("", notes["after"][enc]))
        print("  P0028 label before: %s" % p28["before"])
        print("  P0028 label after : %s" % p28["after"])
        if notes["before"] == notes["after"] or p28["before"] == p28["after"]:
            print("no visible difference: the demonstration is pointless")
            sys.exit(2)
    finally:
        shutil.rmtree(tmp, ignore_errors=True)
    finish()


main()
