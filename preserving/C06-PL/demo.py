#!/usr/bin/env python3
"""Demo for change C (the language server publishes diagnostics for every file
of the project after a change, not only for the changed document).

usage: demo.py <compiler workspace directory>   (binary: $1/target/debug/ironplcc)

Talks to `ironplcc lsp --stdio`. Prints what is visibly different (the
`textDocument/publishDiagnostics` notifications that follow each
`didOpen`/`didChange`) and checks property C06 around the changed behaviour:
the verdict for the set, and for the unit with one fault also the problem code
and the place, are the same for every order of the declarations, every
partition into files, every order in which the files are opened, every run,
with files coming from the client or from disk (and changing on disk between
messages); a declaration in any file is visible in every other file.

The verdict for a file is taken from the answer to a change of that very file
(the only thing the unchanged server reports), after all files are known. In
addition every notification for another file (only the changed server sends
those) must say exactly what a change of that file itself says in that state.

Exit status 0: the property held on everything that was tried.
"""
import itertools
import os
import json
import random
import shutil
import subprocess
import sys
import tempfile
import urllib.parse

BIN = os.path.join(os.path.abspath(sys.argv[1]), "target", "debug", "ironplcc")

DECLS = [
    # (name, text)
    ("level", """(* Stufe — 段階 *)
TYPE
  Level : (LOW, HIGH) := LOW;
END_TYPE
"""),
    ("counter", """FUNCTION_BLOCK Counter
VAR_INPUT
  Reset : BOOL;
END_VAR
VAR
  Cnt : INT; (* Zählerstand ✓ *)
END_VAR
  Cnt := Cnt + 1;
END_FUNCTION_BLOCK
"""),
    ("main", """PROGRAM Main
VAR
  c : Counter;
  l : Level;
END_VAR
  c(Reset := FALSE);
END_PROGRAM
"""),
    ("config", """CONFIGURATION config
  RESOURCE resource1 ON PLC
    TASK plc_task(INTERVAL := T#100ms, PRIORITY := 1);
    PROGRAM plc_task_instance WITH plc_task : Main;
  END_RESOURCE
END_CONFIGURATION
"""),
]
GOOD = dict(DECLS)
# One fault: the type of `l` is not declared anywhere (same size as the good text).
FAULTY = dict(DECLS)
FAULTY["main"] = GOOD["main"].replace("l : Level;", "l : Levle;")
NAMES = [name for name, _ in DECLS]
FILE_NAMES = ["a_zähler.st", "b_計数.st", "c.st"]

failures = []
runs = 0


def fail(msg):
    failures.append(msg)
    print("PROPERTY VIOLATED: " + msg)


def write_layout(directory, texts, order, assignment):
    """Writes the declarations in `order`; declaration i goes to file assignment[i]."""
    files = {}
    for name in order:
        files.setdefault(FILE_NAMES[assignment[name]], []).append(texts[name])
    for fname, parts in files.items():
        with open(os.path.join(directory, fname), "w", encoding="utf-8") as f:
            f.write("\n".join(parts))
    return sorted(files)


def partitions(names, k):
    """All partitions of names into at most k blocks, as name -> block number."""
    def rec(i, blocks):
        if i == len(names):
            yield {n: b for b, block in enumerate(blocks) for n in block}
            return
        for b in range(len(blocks)):
            blocks[b].append(names[i])
            yield from rec(i + 1, blocks)
            blocks[b].pop()
        if len(blocks) < k:
            blocks.append([names[i]])
            yield from rec(i + 1, blocks)
            blocks.pop()
    yield from rec(0, [])




class Server:
    """A language server process and the client side of the protocol."""

    def __init__(self, tmp, cwd, folder=None):
        global runs
        runs += 1
        env = dict(os.environ, TMPDIR=tmp)
        self.p = subprocess.Popen([BIN, "lsp", "--stdio"], cwd=cwd, env=env,
                                  stdin=subprocess.PIPE, stdout=subprocess.PIPE,
                                  stderr=subprocess.DEVNULL)
        self.next_id = 0
        self.versions = {}
        folders = None if folder is None else [{"uri": uri_of(folder), "name": "demo"}]
        self.request("initialize", {"processId": None, "rootUri": None, "capabilities": {},
                                    "workspaceFolders": folders})
        self.notify("initialized", {})

    def send(self, message):
        body = json.dumps(dict(message, jsonrpc="2.0")).encode("utf-8")
        self.p.stdin.write(b"Content-Length: %d\r\n\r\n" % len(body) + body)
        self.p.stdin.flush()

    def receive(self):
        length = None
        while True:
            line = self.p.stdout.readline()
            if not line:
                raise RuntimeError("server closed the connection")
            line = line.strip()
            if not line:
                break
            name, _, value = line.partition(b":")
            if name.lower() == b"content-length":
                length = int(value)
        return json.loads(self.p.stdout.read(length).decode("utf-8"))

    def request(self, method, params):
        """Sends a request; returns (everything received before the response, response)."""
        self.next_id += 1
        self.send({"id": self.next_id, "method": method, "params": params})
        before = []
        while True:
            message = self.receive()
            if message.get("id") == self.next_id and "method" not in message:
                return before, message
            before.append(message)

    def notify(self, method, params):
        self.send({"method": method, "params": params})

    def published(self):
        """The publishDiagnostics notifications sent so far and not yet collected.

        The server handles messages in order, so the response to a request that
        is sent now comes after everything the earlier notification caused."""
        before, response = self.request("demo/sync", {})
        if response.get("error", {}).get("code") != -32601:
            fail("unexpected answer to an unknown request: %r" % (response,))
        out = []
        for m in before:
            if m.get("method") != "textDocument/publishDiagnostics":
                fail("unexpected message %r" % (m,))
                continue
            out.append(m["params"])
        return out

    def open(self, path, text):
        self.versions[path] = self.versions.get(path, 0) + 1
        self.notify("textDocument/didOpen", {"textDocument": {
            "uri": uri_of(path), "languageId": "61131-3-st", "version": self.versions[path], "text": text}})
        return self.published()

    def change(self, path, text):
        self.versions[path] = self.versions.get(path, 0) + 1
        self.notify("textDocument/didChange", {
            "textDocument": {"uri": uri_of(path), "version": self.versions[path]},
            "contentChanges": [{"text": text}]})
        return self.published()

    def stop(self):
        _, response = self.request("shutdown", None)
        self.notify("exit", None)
        self.p.stdin.close()
        if self.p.wait(timeout=60) != 0:
            fail("server exit status %r" % self.p.returncode)


def uri_of(path):
    return "file://" + urllib.parse.quote(path)


def path_of(uri):
    parsed = urllib.parse.urlparse(uri)
    return urllib.parse.unquote(parsed.path)


def problems(params, texts):
    """(code, text of the line, character) of each diagnostic of a notification."""
    lines = texts[path_of(params["uri"])].split("\n")
    out = []
    for d in params["diagnostics"]:
        start = d["range"]["start"]
        out.append((d["code"], lines[start["line"]].strip(), start["character"]))
    return tuple(sorted(out))


def check_batch(server, batch, path, texts, what):
    """The notifications that follow one change: the first is the direct answer."""
    if not batch:
        fail("%s: no diagnostics published" % what)
        return None
    first = batch[0]
    if path_of(first["uri"]) != path or first.get("version") != server.versions[path]:
        fail("%s: first notification is for %r version %r" % (what, first["uri"], first.get("version")))
    others = [path_of(b["uri"]) for b in batch[1:]]
    if len(set(others)) != len(others) or path in others or not set(others) <= set(texts):
        fail("%s: additional notifications for %r" % (what, others))
    for b in batch[1:]:
        # a version, when given, is the version the client last sent for that document
        if b.get("version") is not None and b["version"] != server.versions.get(path_of(b["uri"])):
            fail("%s: version %r for %r" % (what, b["version"], b["uri"]))
    return first


def verdict_by_touching(server, texts, order, what):
    """Changes every file to the text it already has; returns the problems per file."""
    result = {}
    batches = {}
    for path in order:
        batch = server.change(path, texts[path]) if path in server.versions else server.open(path, texts[path])
        first = check_batch(server, batch, path, texts, what)
        if first is not None:
            result[path] = problems(first, texts)
        batches[path] = batch
    # what was said about a file while another file changed is what is said
    # about the file when it changes itself (the state is the same throughout)
    for path, batch in batches.items():
        for b in batch[1:]:
            other = path_of(b["uri"])
            if other in result and problems(b, texts) != result[other]:
                fail("%s: while changing %s, %s got %r but its own answer is %r"
                     % (what, path, other, problems(b, texts), result[other]))
    return result


def summarize(result):
    found = tuple(sorted(p for ps in result.values() for p in ps))
    return ("ERR" if found else "OK", found)


def session(texts, open_order, tmp, cwd, what, trace=None):
    """Opens the files in the order, then asks about every file."""
    server = Server(tmp, cwd)
    try:
        for path in open_order:
            batch = server.open(path, texts[path])
            check_batch(server, batch, path, texts, what)
            if trace is not None:
                trace.append(("didOpen " + os.path.basename(path),
                              [(os.path.basename(path_of(b["uri"])), b.get("version"), len(b["diagnostics"])) for b in batch]))
        result = verdict_by_touching(server, texts, list(reversed(open_order)), what)
        return summarize(result)
    finally:
        server.stop()


def read_layout(src, files):
    texts = {}
    for f in files:
        with open(os.path.join(src, f), encoding="utf-8") as fh:
            texts[os.path.join(src, f)] = fh.read()
    return texts


def check_variant(label, variant, expected, root, rng):
    seen = set()
    layouts = []
    all_partitions = list(partitions(NAMES, 3))
    for order in itertools.permutations(NAMES):
        layouts.append((order, {n: 0 for n in NAMES}))
        layouts.append((order, rng.choice(all_partitions)))
    for assignment in all_partitions:
        layouts.append((tuple(NAMES), assignment))
    tmp = tempfile.mkdtemp(dir=root)
    for n, (order, assignment) in enumerate(layouts):
        src = os.path.join(root, "projekt-ü", "src-%s-%d" % (label, n))
        os.makedirs(src)
        files = write_layout(src, variant, order, assignment)
        texts = read_layout(src, files)
        for open_order in itertools.permutations(sorted(texts)):
            seen.add(session(texts, list(open_order), tmp, root, "%s layout %d" % (label, n)))
    if seen != {expected}:
        fail("%s: expected only %r, saw %r" % (label, expected, seen))


def main():
    rng = random.Random(6)
    root = os.path.realpath(tempfile.mkdtemp(prefix="c06-demo-c-"))
    try:
        place = ("P0022", "l : Levle;", 6)
        check_variant("good", GOOD, ("OK", ()), root, rng)
        check_variant("faulty", FAULTY, ("ERR", (place,)), root, rng)

        print("== visible difference: notifications after each didOpen (file, version, number of diagnostics)")
        src = os.path.join(root, "projekt-ü", "src")
        os.makedirs(src)
        split = {"level": 0, "counter": 1, "main": 1, "config": 2}
        files = write_layout(src, GOOD, NAMES, split)
        texts = read_layout(src, files)
        tmp = tempfile.mkdtemp(dir=root)
        trace = []
        # the file that uses the type first, the file that declares the type last
        got = session(texts, [os.path.join(src, f) for f in (FILE_NAMES[1], FILE_NAMES[2], FILE_NAMES[0])],
                      tmp, root, "trace", trace)
        for event, batch in trace:
            print("   %-22s -> %s" % (event, batch))
        if got != ("OK", ()):
            fail("trace: %r" % (got,))

        print("== files from disk (workspace folder), client overrides one, disk changes between messages")
        write_layout(src, FAULTY, NAMES, split)
        disk = read_layout(src, files)
        faulty_file = os.path.join(src, FILE_NAMES[1])
        good_text = texts[faulty_file]
        server = Server(tmp, root, folder=src)
        try:
            # as read from disk: one fault. The client opens only the file with the fault.
            now = dict(disk)
            batch = server.open(faulty_file, now[faulty_file])
            print("   opened from disk     -> %s" % [(os.path.basename(path_of(b["uri"])), b.get("version"), len(b["diagnostics"])) for b in batch])
            first = check_batch(server, batch, faulty_file, now, "open from disk")
            if first is None or problems(first, now) != (place,):
                fail("open from disk: expected the fault, got %r" % (batch,))
            for b in batch[1:]:
                if b["diagnostics"]:
                    fail("open from disk: problems in a file without fault %r" % (b,))
            got = summarize(verdict_by_touching(server, now, sorted(now), "disk"))
            if got != ("ERR", (place,)):
                fail("disk: expected the fault, got %r" % (got,))
            # the client repairs the file in the editor; the disk is not touched
            now[faulty_file] = good_text
            batch = server.change(faulty_file, good_text)
            print("   repaired in editor   -> %s" % [(os.path.basename(path_of(b["uri"])), b.get("version"), len(b["diagnostics"])) for b in batch])
            check_batch(server, batch, faulty_file, now, "repair")
            got = summarize(verdict_by_touching(server, now, sorted(now, reverse=True), "repaired"))
            if got != ("OK", ()):
                fail("repaired: expected OK, got %r" % (got,))
            # the disk changes behind the server (another fault, other sizes): no effect, the
            # server only knows what it read at the start and what the client sent
            with open(os.path.join(src, FILE_NAMES[0]), "w", encoding="utf-8") as f:
                f.write("TYPE\n  Other : (A, B) := A;\nEND_TYPE\n")
            os.remove(os.path.join(src, FILE_NAMES[2]))
            got = summarize(verdict_by_touching(server, now, sorted(now), "disk changed"))
            if got != ("OK", ()):
                fail("disk changed: expected OK, got %r" % (got,))
            # and broken again in the editor
            now[faulty_file] = disk[faulty_file]
            batch = server.change(faulty_file, now[faulty_file])
            print("   broken in editor     -> %s" % [(os.path.basename(path_of(b["uri"])), b.get("version"), len(b["diagnostics"])) for b in batch])
            got = summarize(verdict_by_touching(server, now, sorted(now), "broken again"))
            if got != ("ERR", (place,)):
                fail("broken again: expected the fault, got %r" % (got,))
        finally:
            server.stop()
    finally:
        shutil.rmtree(root, ignore_errors=True)

    print("%d server processes, %d violations" % (runs, len(failures)))
    return 1 if failures else 0


if __name__ == "__main__":
    sys.exit(main())
