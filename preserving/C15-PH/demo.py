#!/usr/bin/env python3
"""Demo / independent check for change B (names of the elementary types are
reported with a new legend entry `type`, `=>` is an operator like `:=`).

usage: demo.py <compiler workspace dir>      (binary: $1/target/debug/ironplcc)

Prints the legend and, lexeme by lexeme, the legend entry of every token of a
document that uses all the elementary type names, then checks property C15 on
everything it tried (several documents, an edit history with invalid text in
between). Exits 0 when the property holds (with and without the change), 1
otherwise.
"""
import json
import os
import re
import shutil
import subprocess
import sys
import tempfile

# --------------------------------------------------------------------------
# A minimal LSP client over stdio
# --------------------------------------------------------------------------


class Client:
    def __init__(self, binary, cwd):
        self.proc = subprocess.Popen(
            [binary, "lsp", "--stdio"],
            stdin=subprocess.PIPE,
            stdout=subprocess.PIPE,
            stderr=subprocess.DEVNULL,
            cwd=cwd,
        )
        self.next_id = 0
        self.notifications = []
        self.server_requests = []

    def _send(self, msg):
        body = json.dumps(msg).encode("utf-8")
        self.proc.stdin.write(b"Content-Length: %d\r\n\r\n" % len(body) + body)
        self.proc.stdin.flush()

    def _read(self):
        length = None
        while True:
            line = self.proc.stdout.readline()
            if not line:
                raise RuntimeError("server closed the connection")
            line = line.strip()
            if not line:
                break
            name, _, value = line.partition(b":")
            if name.lower() == b"content-length":
                length = int(value)
        return json.loads(self.proc.stdout.read(length).decode("utf-8"))

    def notify(self, method, params):
        self._send({"jsonrpc": "2.0", "method": method, "params": params})

    def request(self, method, params):
        """Sends a request and returns the whole response message."""
        self.next_id += 1
        rid = self.next_id
        self._send({"jsonrpc": "2.0", "id": rid, "method": method, "params": params})
        while True:
            msg = self._read()
            if "id" in msg and "method" not in msg:
                assert msg["id"] == rid, msg
                return msg
            if "id" in msg:
                # A request from the server: answer it so that nobody waits.
                self.server_requests.append(msg)
                self._send({"jsonrpc": "2.0", "id": msg["id"], "result": None})
            else:
                self.notifications.append(msg)

    def wait_notification(self, method):
        while True:
            for i, n in enumerate(self.notifications):
                if n.get("method") == method:
                    return self.notifications.pop(i)
            msg = self._read()
            if "id" in msg and "method" in msg:
                self.server_requests.append(msg)
                self._send({"jsonrpc": "2.0", "id": msg["id"], "result": None})
            else:
                self.notifications.append(msg)

    def initialize(self, capabilities, folders=None):
        resp = self.request(
            "initialize",
            {"processId": None, "rootUri": None, "capabilities": capabilities,
             "workspaceFolders": folders},
        )
        self.notify("initialized", {})
        return resp["result"]

    def open(self, uri, text, version=1):
        self.notify("textDocument/didOpen", {"textDocument": {
            "uri": uri, "languageId": "st", "version": version, "text": text}})
        return self.wait_notification("textDocument/publishDiagnostics")

    def change(self, uri, text, version):
        self.notify("textDocument/didChange", {
            "textDocument": {"uri": uri, "version": version},
            "contentChanges": [{"text": text}]})
        return self.wait_notification("textDocument/publishDiagnostics")

    def tokens(self, uri):
        return self.request("textDocument/semanticTokens/full",
                            {"textDocument": {"uri": uri}})

    def close(self):
        try:
            self.request("shutdown", None)
            self.notify("exit", None)
            self.proc.stdin.close()
            self.proc.wait(timeout=20)
        except Exception:
            self.proc.kill()
        return self.proc.returncode


# --------------------------------------------------------------------------
# An independent model of the highlighted lexemes
# --------------------------------------------------------------------------

KEYWORDS = set("""ACTION END_ACTION ARRAY OF AT CASE ELSE END_CASE CONSTANT CONFIGURATION
END_CONFIGURATION EN ENO EXIT FALSE F_EDGE FOR TO BY DO END_FOR FUNCTION END_FUNCTION
FUNCTION_BLOCK END_FUNCTION_BLOCK IF THEN ELSIF END_IF INITIAL_STEP END_STEP PROGRAM WITH
END_PROGRAM R_EDGE READ_ONLY READ_WRITE REPEAT UNTIL END_REPEAT RESOURCE ON END_RESOURCE
RETAIN NON_RETAIN RETURN STEP STRUCT END_STRUCT TASK END_TASK TRANSITION FROM END_TRANSITION
TRUE TYPE END_TYPE VAR END_VAR VAR_INPUT VAR_OUTPUT VAR_IN_OUT VAR_TEMP VAR_EXTERNAL VAR_ACCESS
VAR_CONFIG VAR_GLOBAL WHILE END_WHILE BOOL SINT INT DINT LINT USINT UINT UDINT ULINT REAL LREAL
TIME DATE TIME_OF_DAY TOD DATE_AND_TIME DT STRING BYTE WORD DWORD LWORD WSTRING""".split())
WORD_OPERATORS = {"OR", "XOR", "AND", "MOD", "NOT"}
SYMBOL_OPERATORS = {"=", "<>", "<", ">", "<=", ">=", "/", "*", "+", "-", "**", ":=", "&",
                    "=>", ".."}
WORD = re.compile(r"[A-Za-z_][A-Za-z0-9_]*\Z")
ADDRESS = re.compile(r"%[IQMiqm](\*|[XBWDLxbwdl]?\d(\.\d)*)\Z")

# Legend entries that this check accepts for each class of lexeme. The property
# asks for "the legend entry that matches the lexeme's class"; the entry must
# also be the same for every occurrence of the same (case folded) lexeme.
ALLOWED = {
    "comment": {"comment"},
    "identifier": {"variable", "parameter", "property", "function", "type", "class",
                   "struct", "enum", "enumMember", "namespace"},
    "keyword": {"keyword", "modifier", "type", "string", "operator"},
    "operator": {"operator", "keyword"},
    "address": {"operator", "variable", "macro", "number"},
}


def opaque_regions(text):
    """Comments and string literals: list of (start, end, is_comment)."""
    regions = []
    i = 0
    while i < len(text):
        if text.startswith("(*", i):
            j = text.find("*)", i + 2)
            assert j >= 0, "demo documents close their comments"
            regions.append((i, j + 2, True))
            i = j + 2
        elif text.startswith("//", i):
            j = text.find("\n", i)
            j = len(text) if j < 0 else j + 1
            regions.append((i, j, True))
            i = j
        elif text[i] in "'\"":
            j = text.find(text[i], i + 1)
            assert j >= 0, "demo documents close their strings"
            regions.append((i, j + 1, False))
            i = j + 1
        else:
            i += 1
    return regions


def width(ch, unit):
    if unit == "utf-16":
        return 2 if ord(ch) > 0xFFFF else 1
    if unit == "utf-8":
        return len(ch.encode("utf-8"))
    return 1  # utf-32: code points


def advance(text, index, amount, unit, stop_at_newline):
    """Index reached after `amount` units from `index`, or None when that is
    inside a character or beyond the text (or the line)."""
    while amount > 0:
        if index >= len(text) or (stop_at_newline and text[index] == "\n"):
            return None
        amount -= width(text[index], unit)
        index += 1
    return index if amount == 0 else None


def classify(text, start, end, regions):
    """Class of the lexeme that is exactly text[start:end], or an error string."""
    lexeme = text[start:end]
    for (s, e, is_comment) in regions:
        if (s, e) == (start, end) and is_comment:
            return "comment", None
        if start < e and s < end:
            return None, "overlaps a comment or string literal at %d..%d" % (s, e)
    before = text[start - 1] if start > 0 else " "
    after = text[end] if end < len(text) else " "
    if WORD.match(lexeme):
        if re.match(r"[A-Za-z0-9_]", before) or re.match(r"[A-Za-z0-9_]", after):
            return None, "is only a part of a word"
        upper = lexeme.upper()
        if upper in WORD_OPERATORS:
            return "operator", None
        return ("keyword" if upper in KEYWORDS else "identifier"), None
    if lexeme in SYMBOL_OPERATORS:
        if lexeme + after in SYMBOL_OPERATORS or before + lexeme in SYMBOL_OPERATORS:
            return None, "is only a part of an operator"
        return "operator", None
    if ADDRESS.match(lexeme):
        if re.match(r"[0-9.]", after) and ADDRESS.match(lexeme + after):
            return None, "is only a part of an address"
        return "address", None
    return None, "is not a keyword, identifier, comment, operator or address"


def decode(text, data, unit, legend):
    """Decodes the relative encoding. Returns (tokens, error)."""
    if len(data) % 5 != 0:
        return None, "data length %d is not a multiple of 5" % len(data)
    line_starts = [0] + [i + 1 for i, c in enumerate(text) if c == "\n"]
    regions = opaque_regions(text)
    tokens = []
    line = 0
    col = 0
    prev_end = 0
    for k in range(0, len(data), 5):
        d_line, d_start, length, ttype, mods = data[k:k + 5]
        if min(d_line, d_start, length, ttype, mods) < 0:
            return None, "negative number in token %d" % (k // 5)
        line += d_line
        col = col + d_start if d_line == 0 else d_start
        if k > 0 and d_line == 0 and d_start == 0:
            return None, "token %d does not advance" % (k // 5)
        if line >= len(line_starts):
            return None, "token %d is on line %d beyond the document" % (k // 5, line)
        start = advance(text, line_starts[line], col, unit, True)
        if start is None:
            return None, "token %d: column %d is not a position of line %d" % (k // 5, col, line)
        end = advance(text, start, length, unit, False)
        if end is None or length == 0:
            return None, "token %d: length %d does not end at a character" % (k // 5, length)
        if start < prev_end:
            return None, "token %d overlaps the token before it" % (k // 5)
        prev_end = end
        if ttype >= len(legend):
            return None, "token %d: type %d is not in the legend" % (k // 5, ttype)
        cls, err = classify(text, start, end, regions)
        if err:
            return None, "token %d %r %s" % (k // 5, text[start:end], err)
        if legend[ttype] not in ALLOWED[cls]:
            return None, "token %d %r (%s) has legend entry %r" % (
                k // 5, text[start:end], cls, legend[ttype])
        tokens.append((start, end, cls, legend[ttype], mods))
    return tokens, None


class Checker:
    """Collects (text, response) pairs of a session and checks them together,
    in one unit of position for the whole session."""

    def __init__(self, init_result):
        caps = init_result["capabilities"]
        self.provider = caps["semanticTokensProvider"]
        self.legend = self.provider["legend"]["tokenTypes"]
        self.announced = caps.get("positionEncoding")
        self.samples = []
        self.failures = []

    def add(self, name, text, response, expect_null):
        if "error" in response:
            self.failures.append("%s: error response %r" % (name, response["error"]))
            return
        result = response["result"]
        if expect_null:
            if result is not None:
                self.failures.append("%s: invalid text but result is not null" % name)
            return
        if result is None:
            self.failures.append("%s: valid text but null result" % name)
            return
        self.samples.append((name, text, result["data"]))

    def finish(self):
        """Returns (unit, failures)."""
        units = [self.announced] if self.announced else ["utf-16", "utf-8", "utf-32"]
        best = None
        for unit in units:
            errors = []
            kinds = {}
            for (name, text, data) in self.samples:
                tokens, err = decode(text, data, unit, self.legend)
                if err:
                    errors.append("%s [%s]: %s" % (name, unit, err))
                    continue
                for (s, e, cls, entry, _mods) in tokens:
                    key = "(identifier)" if cls == "identifier" else (
                        "(comment)" if cls == "comment" else (
                            "(address)" if cls == "address" else text[s:e].upper()))
                    if kinds.setdefault(key, entry) != entry:
                        errors.append("%s [%s]: %r is %r here and %r elsewhere" % (
                            name, unit, text[s:e], entry, kinds[key]))
            if not errors:
                return unit, self.failures
            if best is None or len(errors) < len(best[1]):
                best = (unit, errors)
        return best[0], self.failures + best[1]


# --------------------------------------------------------------------------
# The documents of this demo
# --------------------------------------------------------------------------

TYPE_NAMES = ("BOOL SINT INT DINT LINT USINT UINT UDINT ULINT REAL LREAL TIME DATE "
              "TIME_OF_DAY TOD DATE_AND_TIME DT STRING WSTRING BYTE WORD DWORD LWORD").split()

DOC_TYPES = (
    "FUNCTION_BLOCK fb (* every elementary type *)\r\n"
    "  VAR_INPUT (* in *) go : BOOL; END_VAR\r\n"
    "  VAR_OUTPUT done : bool; END_VAR\r\n"
    "  VAR RETAIN\r\n"
    + "".join("    (* %s *) v%d : %s; // %s\r\n" % (t.lower(), i, t if i % 2 else t.lower(), t)
              for i, t in enumerate(TYPE_NAMES))
    + "  END_VAR\r\n"
    "END_FUNCTION_BLOCK\r\n"
)
DOC_CALL = (
    "PROGRAM main\n"
    "  VAR inst : fb; (* multi\n line *) res : BOOL; n : INT := 16#1F; s : STRING[10] := 'INT'; END_VAR\n"
    "  inst(go := TRUE, done => res); (* => in a comment *) n := n + INT_TO_DINT(n);\n"
    "  IF res AND NOT (n <= 3) THEN n := n MOD 2; END_IF;\n"
    "END_PROGRAM\n"
)
DOC_TYPEDEF = (
    "TYPE (* a *) level : (low, high); (* b *) span : INT (0..10); rec : STRUCT a : LREAL; "
    "b : ARRAY [1..2] OF WORD; END_STRUCT; END_TYPE\n"
)
DOC_INVALID = "TYPE t : INT; ? END_TYPE\n"
DOC_INVALID_2 = "VAR x : BOOL; END_VAR $\n"


def show(text, data, legend):
    """One line per token: position, lexeme, legend entry."""
    tokens, err = decode(text, data, "utf-8", legend)
    if err:
        print("   (cannot show: %s)" % err)
        return
    seen = []
    for (s, e, cls, entry, _mods) in tokens:
        lexeme = text[s:e]
        if cls in ("comment", "identifier"):
            continue
        item = "%s->%s" % (lexeme.upper(), entry)
        if item not in seen:
            seen.append(item)
    print("   " + " ".join(seen))


def main():
    if len(sys.argv) != 2:
        print(__doc__)
        return 2
    binary = os.path.join(os.path.abspath(sys.argv[1]), "target", "debug", "ironplcc")
    workdir = tempfile.mkdtemp(prefix="c15-demo-b-")
    failures = []
    try:
        client = Client(binary, workdir)
        init = client.initialize({})
        checker = Checker(init)
        print("legend: %s" % json.dumps(checker.legend))
        print("modifiers: %s" % json.dumps(checker.provider["legend"]["tokenModifiers"]))
        uri = "file://" + os.path.join(workdir, "types.st")
        other = "file://" + os.path.join(workdir, "other.st")
        history = [
            (uri, "types", DOC_TYPES, False),
            (uri, "invalid", DOC_INVALID, True),
            (uri, "call", DOC_CALL, False),
            (other, "typedef", DOC_TYPEDEF, False),
            (uri, "invalid-2", DOC_INVALID_2, True),
            (uri, "types-again", DOC_TYPES, False),
            (other, "call-in-other", DOC_CALL, False),
        ]
        opened = set()
        for version, (doc, name, text, expect_null) in enumerate(history, 1):
            if doc in opened:
                client.change(doc, text, version)
            else:
                client.open(doc, text, version)
                opened.add(doc)
            response = client.tokens(doc)
            checker.add(name, text, response, expect_null)
            result = response.get("result")
            print("%s: %s" % (name, "null" if result is None else
                              "%d tokens" % (len(result["data"]) // 5)))
            if result is not None and name in ("types", "call", "typedef"):
                show(text, result["data"], checker.legend)
        # the document that was not touched last still answers for its own text
        response = client.tokens(uri)
        checker.add("types-again (asked again)", DOC_TYPES, response, False)
        code = client.close()
        unit, failures = checker.finish()
        print("unit in which every response decodes exactly: %s" % unit)
        if code != 0:
            failures.append("server exit code %r" % code)
    finally:
        shutil.rmtree(workdir, ignore_errors=True)
    for f in failures:
        print("PROPERTY VIOLATION: %s" % f)
    if failures:
        print("RESULT: property C15 violated on %d point(s)" % len(failures))
        return 1
    print("RESULT: property C15 holds on everything tried")
    return 0


if __name__ == "__main__":
    sys.exit(main())
